#!/usr/bin/env python3
"""Regenerates /verif/MANIFEST.json from the table below. A property is claimed only when its monitor
package exists in harness/cmd/<id> AND it is listed in READY (checked silent on the unchanged tree)."""
import json, os, sys
V = os.path.dirname(os.path.dirname(os.path.abspath(__file__)))
READY = [l.strip() for l in open(os.path.join(V, "tools", "READY")) if l.strip() and not l.startswith("#")]

P = {
 "C01": ("invariant monitor: bit-exact fingerprint of every live mesh re-read after every operation of random derivation histories",
         "Held on the executed histories only: every live mesh value is re-fingerprinted through the public accessors after every step of thousands of random histories biased to sibling derivations from bases with spare capacity. Right level because immutability is a safety property over histories whose refutation is an observable changed fingerprint.",
         "trusts the Go runtime, the harness fingerprint code and that the public accessors report the state users see; histories are bounded (<=60 steps, meshes <=300 vertices)"),
 "C02": ("well-formedness oracle after every step of random operation chains and over generator parameter sweeps; runtime panics caught per case",
         "Exploration: every generator parameterisation and every chain step is checked by an independent well-formedness oracle, with Go runtime errors classed as violations; small parameter spaces are enumerated, larger ones sampled with fixed PRNG-determined case lists.",
         "inputs come from the harness generator (well-formed by construction); parameters the constructors reject by deliberate panic(error)/error count as reported failure"),
 "C03": ("reference-model monitor: naive per-operation reference evaluated on the corner view of the same input",
         "Exploration: each operation's output is compared with a ~10-line reference written against the corner view (exact for layout operations, 1e-9 where summation order is unspecified) on thousands of generated meshes with shared, duplicated and unreferenced vertices.",
         "reference models are ours; finite inputs only; semantics only on topologies the operation documents"),
 "C04": ("round-trip monitor with independent PLY header/body sizer across ascii/LE/BE and writer options",
         "Exploration: Read(Write(m)) is compared corner by corner at the stored precision for three encodings and several writer configurations, and an independent parser checks that every emitted header describes its body (counts, property list, byte sizes).",
         "finite values, colours in [0,1], Int-typed values inside int32; texcoords only where the format carries them"),
 "C05": ("round-trip monitor plus independent OBJ interpreter as reference meaning of generated and re-saved texts",
         "Exploration: write->read compared per group/corner/material; read->write->read compared through an independent OBJ interpreter so that lost or invented faces are visible.",
         "triangulated OBJ with named groups, no negative indices, names without spaces"),
 "C06": ("independent glTF/GLB structural reader (encoding/json + own accessor decoding) plus content and sharing oracle",
         "Exploration: every produced container is re-read by an independent checker (lengths, index references, byte ranges, alignment, min/max, counts, extensions) and decoded accessors are compared with the float32/integer image of the scene; sharing and non-sharing of meshes/materials/textures is checked with single-field variants.",
         "glTF 2.0 rules limited to those the property lists; skins/animations out of scope"),
 "C07": ("size-law and record-level monitor with independent STL record parser, both directions",
         "Exploration over generated meshes and generated well-formed STL byte strings.",
         "normals whose corner mean is ~0 are generated away (undefined direction)"),
 "C08": ("independent reference PLY encoder from an abstract file model; decoded mesh compared with the model",
         "Exploration over the specification's grammar restricted as the property states: random property orders, aliases, extras, comments, CRLF, count/list types, quads, three encodings.",
         "values float32-representable; no list properties on the vertex element"),
 "C09": ("closed-surface / orientation / isosurface-distance oracle on marched meshes of analytic unions and random lattice fields placed across block boundaries",
         "Exploration: directed-edge pairing, positive signed volume and |f(v)-c| <= L*h on every vertex, with the harness sampling the same lattice to report which of the 256 cube configurations and how many block-crossing cells were exercised.",
         "stated input-only skip rules, counted as inconclusive and never as held: a lattice sample within 1e-9 of the threshold that is not an exact tie on both sides (exact ties are judged on the canvas entry points), and surface features thinner than the weld granule (weld pinch)"),
 "C10": ("exactly-once event log, sequential-vs-parallel result equality, and the Go race detector over the same workloads",
         "Exploration over schedules the Go runtime produces under seeded yields, pool sizes and GOMAXPROCS settings; every element count 0..70 x pool size is enumerated for the scans; nested parallel use and many-block canvases included; the same workloads run in -race builds.",
         "the race detector only sees accesses that execute; schedules not produced are not covered"),
 "C11": ("reference-model monitor: graph mirrored as plain data and evaluated from scratch on every read; execution counters and versions checked after every operation",
         "Exploration over random DAG shapes and histories of parameter updates, re-wiring and reads, each read followed by idle re-reads that must execute nothing.",
         "processors are pure functions defined by the harness"),
 "C12": ("save/load/save monitor through public observers, byte equality of schema and artifacts, over random edit histories and the shipped graph",
         "Exploration over edit histories through the same graph.Instance methods the HTTP handlers call.",
         "nodes in generated graphs are deterministic by construction; non-deterministic shipped producers are detected by triple evaluation and excluded"),
 "C13": ("linearizability checking (porcupine) of recorded client histories with unique values, plus the race detector",
         "Exploration over many short concurrent histories with injected yields inside node processors, driven both directly on graph.Instance and through the real edit server over loopback HTTP; porcupine decides each history against a sequential register model with derived artifacts; the same workloads run in -race builds.",
         "porcupine timeout => inconclusive; only the three entry points the property names"),
 "C14": ("exhaustive enumeration of cut positions on valid files of every format; CPU-time watchdog for termination",
         "Fault enumeration: every byte cut for binary formats and headers, every token boundary for ASCII bodies, for the generated valid files of the tier (all loaders incl. the path-based ones, 8 STL header kinds), plus sampled cuts of large files with a state-based non-termination detector.",
         "cuts inside a numeric ASCII token are excluded by the property; corrupted (not truncated) files out of scope"),
 "C15": ("byte-space quantisation oracle for .splat, independent SPZ reference encoder/dequantiser, PLY splat export round trip",
         "Exploration over random clouds and random packed byte patterns for SPZ v1/v2, SH 0-3, every fractional-bit byte 0-255, sizes around decoder block thresholds, gapped f_rest sets, and histories with injected I/O faults.",
         "finite attributes; scale magnitudes inside float32 exp range"),
 "C16": ("brute-force reference for every query kind over generated element sets and trees of every depth",
         "Exploration: each octree/BVH query answer is compared with an exhaustive scan using the harness's own geometry.",
         "ties and slab intervals within 1e-9 of empty are don't-care"),
 "C17": ("algebraic-law monitor with magnitude-proportional tolerances; exhaustive 16x16 basis-matrix tables for Add/Multiply",
         "Exploration on random instances plus an exhaustive basis enumeration that extends to all inputs by bilinearity.",
         "finite inputs, well-conditioned matrices for inverse laws"),
 "C18": ("closed-surface, orientation, volume and normal-side oracle over exhaustive small and sampled large parameters",
         "Exploration; small row/column/side counts enumerated exhaustively.",
         "coincident positions merged at 1e-9*size"),
 "C19": ("independent membership/distance references per shape, Lipschitz pairs incl. branch-boundary straddling pairs, set-operation sign oracle",
         "Exploration over random admissible shape parameters and point pairs.",
         "rounded cone only in its admissible domain |r1-r2| < |b-a|"),
 "C20": ("exact-arithmetic (big.Rat) orientation / in-circle / overlap oracle on generated point sets incl. extreme extents and offsets",
         "Exploration; predicates are exact so the oracle has no rounding of its own.",
         "general position: near-co-circular quadruples within 1e-9 relative are don't-care"),
}
design = {k: "DESIGN.md §3 " + k + " and §9 (as built)" for k in P}

checks, na = [], []
for pid in sorted(P):
    tech, text, note = P[pid]
    low = pid.lower()
    if pid in READY and os.path.isdir(os.path.join(V, "harness", "cmd", low)):
        checks.append({
            "property_id": pid,
            "quick_cmd": f"./run.sh {pid} quick",
            "thorough_cmd": f"./run.sh {pid} thorough",
            "evidence_file": f"evidence/{pid}.json",
            "replay_cmd_template": f"./run.sh {pid} replay {{path}}",
            "engine": "vcheck",
            "level_claimed": {"category": "fault_enumeration" if pid == "C14" else "exploration", "text": text, "design_ref": design[pid]},
            "level_note": note,
            "technique": "runtime monitoring: " + tech,
        })
    else:
        na.append({"property_id": pid, "reason": "runtime monitor designed (DESIGN.md §3) but not yet registered at this commit: it is only claimed once it has been shown silent on the unchanged tree"})

hooks_commits = [l.strip() for l in os.popen("git -C /repo log --format=%H --grep='^verif hooks' ").read().split()]
m = {
 "version": 1,
 "setup_cmd": "./setup.sh",
 "hooks": {
   "guard": "verif",
   "enable": "go build -tags verif (run.sh builds the harness module, which replaces github.com/EliCDavis/polyform => /repo, with -tags verif; hook files are //go:build verif)",
   "baseline_off_cmd": "cd /repo && GOFLAGS=-mod=mod GOPROXY=off GOSUMDB=off GOTOOLCHAIN=local go test -vet=off -count=1 -timeout 25m ./...",
   "source_commits": hooks_commits,
   "add_only": True,
 },
 "engines": [{"name": "vcheck", "path": "harness/", "serves_properties": [c["property_id"] for c in checks],
              "kind_free_text": "Go harness: per-property monitor binaries (parent scheduler + worker children with journal, CPU-time watchdog, race-detector builds, porcupine) that run the real polyform code from /repo's working tree under generated workloads"}],
 "checks": checks,
 "not_applicable": na,
 "notes": "All checks are runtime monitors over executions of the real code; see DESIGN.md. known_findings.json lists recorded and repaired defects.",
}
json.dump(m, open(os.path.join(V, "MANIFEST.json"), "w"), indent=1)
print("claimed:", [c["property_id"] for c in checks])
