#!/bin/bash
# tools/seedcheck.sh <seed-dir> <Cxx> [tier]
# Validates one seeded change kept under /verif/seeded/<id>/ (patch.diff, demo/, meta.json) in a scratch
# worktree of /repo (never in /repo itself): (1) the patch applies, (2) the unedited suite still passes,
# (3) the demonstration fails with the change and (4) passes without it, (5) our check reports a VIOLATION.
# Prints one summary line; exit 0 iff 1-4 hold (5 is reported, not required).
set -u
export GOFLAGS=-mod=mod GOPROXY=off GOSUMDB=off GOTOOLCHAIN=local
sd="$(cd "$1" && pwd)"; pid="$2"; tier="${3:-quick}"
name="$(basename "$sd")"
# one fixed scratch path (and -trimpath) so that Go's build cache is shared between runs instead of
# growing by ~0.5 GB per scratch tree; runs are serialised by a lock
slot="${SEEDCHK_SLOT:-}"   # SEEDCHK_SLOT=2,3,…: further fixed scratch paths so that a few runs can go in parallel
exec 9>/tmp/seedchk$slot.lock; flock 9
wt="/tmp/seedchk$slot/repo"
git -C /repo worktree remove --force "$wt" 2>/dev/null; rm -rf /tmp/seedchk$slot
mkdir -p "$(dirname "$wt")"
git -C /repo worktree add -q --detach "$wt" HEAD || exit 9
cleanup() { git -C /repo worktree remove --force "$wt" 2>/dev/null; rm -rf "$(dirname "$wt")"; rm -rf /verif/.build/alt-$(echo "$wt" | cksum | cut -d' ' -f1); }
trap cleanup EXIT
log="$sd/check.log"; : > "$log"
demo="$(dirname "$wt")/demo"; cp -r "$sd/demo" "$demo"
sed -i "s|=> .*|=> $wt|" "$demo/go.mod"; cp "$wt/go.sum" "$demo/go.sum"
race=""; grep -qi '"needs_race": *true' "$sd/meta.json" 2>/dev/null && race="-race"
fast="${SEEDCHK_FAST:-}"   # SEEDCHK_FAST=1: steps 2-4 were confirmed at import; only re-run our check (5)
# (4) demo passes on the unchanged tree
if [ -z "$fast" ]; then (cd "$demo" && go test -trimpath $race -count=1 ./... ) >>"$log" 2>&1; demo_clean=$?; else demo_clean=0; fi
git -C "$wt" apply "$sd/patch.diff" >>"$log" 2>&1 || { echo "$name: PATCH DOES NOT APPLY"; exit 1; }
(cd "$wt" && go build -trimpath ./... ) >>"$log" 2>&1 || { echo "$name: DOES NOT COMPILE"; exit 1; }
if [ -z "$fast" ]; then
(cd "$wt" && go test -trimpath -vet=off -count=1 -timeout 25m ./... ) >"$sd/suite.log" 2>&1; suite=$?
(cd "$demo" && go test -trimpath $race -count=1 ./... ) >>"$log" 2>&1; demo_mut=$?
else suite=0; demo_mut=1; fi
out="$(dirname "$wt")/out"
VERIF_OUT="$out" VERIF_REPO="$wt" /verif/run.sh "$pid" "$tier" >"$sd/ourcheck.log" 2>&1; ours=$?
viol="$(grep -c '^VIOLATION' "$sd/ourcheck.log")"
sig="$(grep -m1 '^violating cases' "$sd/ourcheck.log" | cut -c1-300)"
rm -f "$sd/suite.log.ok"; [ $suite -eq 0 ] && rm -f "$sd/suite.log"
python3 - "$sd" "$pid" "$tier" "$suite" "$demo_mut" "$demo_clean" "$ours" "$viol" "$sig" "$(git -C /repo rev-parse --short HEAD)" "$(git -C /verif rev-parse --short HEAD)" <<'P'
import json,sys,os
sd,pid,tier,suite,dm,dc,ours,viol,sig,rh,vh=sys.argv[1:12]
mp=os.path.join(sd,'meta.json')
m=json.load(open(mp)) if os.path.exists(mp) else {}
m.setdefault('our_checks',{})[f'{pid} {tier}']={'exit':int(ours),'violation_lines':int(viol),'signatures':sig,'repo_head':rh,'verif_head':vh}
if not os.environ.get('SEEDCHK_FAST'): m['ran']={'suite_with_change':'pass' if suite=='0' else 'FAIL','demo_with_change':'fails' if dm!='0' else 'PASSES','demo_without_change':'pass' if dc=='0' else 'FAILS',
 'commands':['git -C <scratch worktree of /repo HEAD> apply patch.diff','go test -vet=off -count=1 ./... (unedited suite)','cd demo && go test -count=1 ./...  (with and without the change)',f'VERIF_REPO=<scratch> /verif/run.sh {pid} {tier}']}
json.dump(m,open(mp,'w'),indent=1)
P
echo "$name: prop=$pid suite_with_change=$([ $suite -eq 0 ] && echo pass || echo FAIL) demo_with_change=$([ $demo_mut -ne 0 ] && echo fails-as-expected || echo PASSES) demo_without=$([ $demo_clean -eq 0 ] && echo pass || echo FAILS) our_check_$tier=exit$ours violations=$viol $sig"
[ $suite -eq 0 ] && [ $demo_mut -ne 0 ] && [ $demo_clean -eq 0 ]
