#!/bin/bash
# ./run.sh <Cxx> <quick|thorough>            run the check of one property against /repo's current working tree
# ./run.sh <Cxx> replay <path>               re-execute a recorded violating case
# Exit: 0 held on everything explored · 1 VIOLATION · 2 observed too little (inconclusive) · 3 build failure
set -u
cd "$(dirname "$0")"
export GOFLAGS=-mod=mod GOPROXY=off GOSUMDB=off GOTOOLCHAIN=local GONOSUMDB=* GONOSUMCHECK=1 GOFLAGS=-mod=mod
export VERIF_DIR="$PWD"
id="${1:?usage: run.sh <Cxx> <quick|thorough|replay path>}"
mode="${2:-${VERIF_TIER:-quick}}"
lower="$(echo "$id" | tr 'A-Z' 'a-z')"
RACE_IDS=" c10 c13 "
mkdir -p .build
if [ ! -d "harness/cmd/$lower" ]; then echo "no check for $id"; exit 3; fi
# The registered commands always build against /repo. For validating the monitors against
# scratch copies (seeded mutations) VERIF_REPO=<dir> points the build at another tree; evidence
# and replays of such runs go to a scratch directory, never to /verif/evidence.
REPO="${VERIF_REPO:-/repo}"
MODFLAG=""
BIN="$PWD/.build/$lower"
if [ "$REPO" != "/repo" ]; then
  tag="$(echo "$REPO" | cksum | cut -d' ' -f1)"
  alt="$PWD/.build/alt-$tag"
  mkdir -p "$alt/out"
  sed "s|=> /repo|=> $REPO|" harness/go.mod > "$alt/go.mod"
  cp harness/go.sum "$alt/go.sum" 2>/dev/null
  MODFLAG="-trimpath -modfile=$alt/go.mod"
  BIN="$alt/$lower"
  export VERIF_OUT="${VERIF_OUT:-$alt/out}"
fi
build() {
  (cd harness && go build $MODFLAG -tags verif "$@" -o "$BIN$SUFFIX" "./cmd/$lower") 2>"$BIN$SUFFIX.buildlog"
  rc=$?
  if [ $rc -ne 0 ]; then echo "BUILD FAILED ($id$SUFFIX) against $REPO working tree:"; head -30 "$BIN$SUFFIX.buildlog"; exit 3; fi
}
SUFFIX="" build
case "$RACE_IDS" in *" $lower "*) SUFFIX="-race" build -race ;; esac
if [ "$mode" = "replay" ]; then
  exec "$BIN" -replay "${3:?replay path}"
fi
shift; shift 2>/dev/null
exec "$BIN" -tier "$mode" "$@"
